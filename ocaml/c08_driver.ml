(* C08 — write-ahead discipline at the storage boundary, checked on an I/O trace (hook H1).
   Input (stdin, one event per line; several traces separated by a line "END"):
     P <pid> <hex of the 4096-byte page image>     WritePage
     L <hex>                                       WriteLog ("L" alone or "L -": empty write)
     G                                             GCLogFile
     M CR <txnid>                                  the commit of a writing transaction returned (other markers ignored)
   Output, one line per trace:
     wal_ok=1 events=<n> logwrites=<n> pagewrites=<n> tracked_pagewrites=<n> commit_returns=<n> records=<n>
     wal_ok=0 ...same counters... first_violation=<event index>:<kind>
   With the argument "roundtrip": additionally every log write is parsed with the extracted
   [parse_all] and re-serialised with the extracted [ser_rec]; the line gains
     roundtrip_writes=<n> roundtrip_records=<n> roundtrip_mismatch=<n>
   The only trusted glue is hex -> byte list and bytes 4..8 of a page image -> plsn;
   log parsing is the extracted Coq [parse_all]. *)
open Sdbmodel
open Util

let hexval (c : char) : int =
  match c with
  | '0'..'9' -> Char.code c - 48
  | 'a'..'f' -> Char.code c - 87
  | 'A'..'F' -> Char.code c - 55
  | _ -> failwith "bad hex digit"

let byte_at (h : string) (i : int) : int = hexval h.[2*i] * 16 + hexval h.[2*i+1]

(* small table of the 256 byte values as extracted N *)
let ntab : n array = Array.init 256 n_of_int

let bytes_of_hex_fast (h : string) : n list =
  if h = "-" then []
  else begin
    let n = String.length h / 2 in
    let acc = ref [] in
    for i = n - 1 downto 0 do acc := ntab.(byte_at h i) :: !acc done;
    !acc
  end

let plsn_of_page (h : string) : int =
  if String.length h < 16 then 0
  else byte_at h 4 lor (byte_at h 5 lsl 8) lor (byte_at h 6 lsl 16) lor (byte_at h 7 lsl 24)

let kind_name (v : viol) : string =
  match v with
  | VUnparsable -> "unparsable-log"
  | VLsnOrder -> "lsn-order"
  | VChain -> "chain"
  | VPageAhead -> "page-ahead-of-log"
  | VCommitNotDurable -> "commit-not-durable"

let rec concat_rev_bytes (acc : n list) (l : n list list) : n list =
  match l with [] -> acc | x :: r -> concat_rev_bytes (List.rev_append (List.rev x) acc) r

let () =
  let roundtrip = Array.length Sys.argv > 1 && Sys.argv.(1) = "roundtrip" in
  let evs = ref [] and nev = ref 0 and nlog = ref 0 and npage = ref 0 and ncr = ref 0 in
  let rt_writes = ref 0 and rt_recs = ref 0 and rt_bad = ref 0 in
  let finish () =
    if !nev > 0 then begin
      let tr = List.rev !evs in
      let (nrec, ntp) = wal_stats tr in
      let base = Printf.sprintf "events=%d logwrites=%d pagewrites=%d tracked_pagewrites=%d commit_returns=%d records=%d"
          !nev !nlog !npage (int_of_n ntp) !ncr (int_of_n nrec) in
      let rt = if roundtrip then Printf.sprintf " roundtrip_writes=%d roundtrip_records=%d roundtrip_mismatch=%d" !rt_writes !rt_recs !rt_bad else "" in
      (if wal_ok tr then Printf.printf "wal_ok=1 %s%s\n" base rt
       else match wal_violation tr with
         | Some (idx, v) -> Printf.printf "wal_ok=0 %s%s first_violation=%d:%s\n" base rt (int_of_n idx) (kind_name v)
         | None -> Printf.printf "wal_ok=0 %s%s first_violation=?\n" base rt);
      flush stdout
    end;
    evs := []; nev := 0; nlog := 0; npage := 0; ncr := 0; rt_writes := 0; rt_recs := 0; rt_bad := 0 in
  let push e = evs := e :: !evs; incr nev in
  iter_lines (fun line ->
    match fields line with
    | "END" :: _ -> finish ()
    | "P" :: pid :: h :: _ ->
      incr npage; push (TPage (n_of_int (int_of_string pid), n_of_int (plsn_of_page h)))
    | "L" :: rest ->
      let b = (match rest with h :: _ -> bytes_of_hex_fast h | [] -> []) in
      incr nlog; push (TLog b);
      if roundtrip then begin
        incr rt_writes;
        let (rs, left) = parse_all b in
        rt_recs := !rt_recs + List.length rs;
        (* ser_rec of every parsed record, followed by the leftover, must give the input back *)
        let back = concat_rev_bytes left (List.rev_map ser_rec rs) in
        if back <> b then incr rt_bad
      end
    | "G" :: _ -> push TTrunc
    | "M" :: "CR" :: t :: _ -> incr ncr; push (TCommitRet (n_of_int (int_of_string t)))
    | "M" :: _ -> ()
    | _ -> ());
  finish ()
