(* Model side of the hash-index correspondence (Model/HashTable.v, theorems in Props/C17Hash.v): the linear-probe
   hash table with the engine's geometry (10 blocks x 252 slots), values = packed row ids.
     ins <hash16hex> <page> <slot>   -> inserted | duplicate | full     (what Insert did; the engine's InsertEntry shows nothing)
     del <hash16hex> <page> <slot>   -> ok
     get <hash16hex>                 -> ok:<page>.<slot>;...            (probe order)
     home <hash16hex>                -> flat index of the home slot
     stat                            -> live=<n> occupied=<n>
     reset *)
open Sdbmodel
open Util

let n_of_hex (s : string) : n =
  let bits = List.concat_map (fun c ->
    let v = int_of_string ("0x" ^ String.make 1 c) in [v land 8 <> 0; v land 4 <> 0; v land 2 <> 0; v land 1 <> 0])
    (List.init (String.length s) (String.get s)) in
  let rec strip l = match l with false :: r -> strip r | _ -> l in
  match strip bits with
  | [] -> N0
  | _ :: rest -> Npos (List.fold_left (fun p b -> if b then XI p else XO p) XH rest)

let () =
  let t = ref ht_engine_empty in
  iter_lines (fun line ->
    let line = String.trim line in
    if line <> "" && line.[0] <> '#' then begin
      let out =
        try
          match fields line with
          | ["reset"] -> t := ht_engine_empty; "ok"
          | ["ins"; h; p; s] ->
            let (t', o) = ht_insert (n_of_hex h) (pack64 (z_of_int (int_of_string p)) (n_of_int (int_of_string s))) !t in
            t := t';
            (match o with HtInserted _ -> "inserted" | HtDuplicate _ -> "duplicate" | HtFull -> "full" | HtInsFuel -> "err:fuel")
          | ["del"; h; p; s] ->
            (match ht_remove (n_of_hex h) (pack64 (z_of_int (int_of_string p)) (n_of_int (int_of_string s))) !t with
             | Some t' -> t := t'; "ok" | None -> "err:fuel")
          | ["get"; h] ->
            (match ht_get (n_of_hex h) !t with
             | Some vs -> "ok:" ^ String.concat ";" (List.map (fun v -> let (p, s) = unpack64 v in Printf.sprintf "%d.%d" (int_of_z p) (int_of_n s)) vs)
             | None -> "err:fuel")
          | ["home"; h] -> string_of_int (int_of_nat (ht_home ht_engine_blocks ht_block_array_size (n_of_hex h)))
          | ["stat"] -> Printf.sprintf "live=%d occupied=%d" (int_of_nat (ht_live_count !t)) (int_of_nat (ht_occ_count !t))
          | _ -> "err:bad op"
        with Failure m -> "err:" ^ m in
      print_endline out
    end)
