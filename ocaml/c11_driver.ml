(* C11: ties the join planning model (Model/Join.v) to the engine, per query.
   Commands (one per line, one answer line each):
     T <name> <type,type,...> <idxkind,idxkind,...>   define an empty table; types i|f|s, index kinds n (none) | s (skip list; any
                                                       other letter of the harness's mktable also counts as "indexed")
     R <name> <v,v,...>                                append a row            values: i:<n> f:<bits> s:<hex|-> n
     X <name>                                          drop all rows
     Q  <t1,t2[,t3]> <sel> <jrpn...>                   the query over the named tables in FROM order
     Q1 <t1,t2[,t3]> <sel> <jrpn...>                   the same without enumerating the candidate plans (big tables)
   <sel>: global column numbers (positions in the concatenated row of t1,t2[,t3]), comma separated, "-" for none.
   jrpn (the vocabulary of sql_driver's J command):
     e<k1>.<k2>        equality of two global columns: a join condition when they belong to two tables,
                       a filter of that table's scan when they belong to one table
     c<k> <op> <value> comparison of global column k with a literal, op in eq ne lt le gt ge
     and               conjunction of the two entries on top of the stack ; true
   (column-column comparisons with another operator are not in the reference language SqlRef.jpred.)
   Answer:
     ok hyps=<0|1> ncand=<n> agree=<0|1> shapes=<shape;shape;...> ref=<rows>
       hyps   join_hyps_ok: the statement and the tables satisfy every side condition of Props/C11.v every_candidate_equiv
       ncand  number of candidate plans (join_candidates)
       agree  1 iff every candidate runs and returns the reference rows in some order
       shapes the distinct plan shapes of the candidates, sorted, in the engine's plan notation with every
              maximal join-free subtree (a per-table sub-plan) printed as Scan:
              Scan | HashJoin(l,r) | IndexJoin(l) | NestedLoopJoin(l,r) | Selection(x) | Projection(x)
       ref    join_sel: rows "v,v,..." sorted and joined by ";" (as sql_driver prints them)
     Q1 answers  ok hyps=<0|1> ref=<rows>
     err <message> on a malformed command *)
open Sdbmodel
open Util

let parse_val (s : string) : value =
  if s = "n" then VNull
  else match s.[0] with
    | 'i' -> VInt (z_of_int (int_of_string (String.sub s 2 (String.length s - 2))))
    | 'f' -> VFloat (n_of_int (int_of_string (String.sub s 2 (String.length s - 2))))
    | 's' -> VStr (bytes_of_hex (String.sub s 2 (String.length s - 2)))
    | _ -> failwith ("bad value " ^ s)

let show_val (v : value) : string =
  match v with
  | VNull -> "n"
  | VInt z -> Printf.sprintf "i:%d" (int_of_z z)
  | VFloat u -> Printf.sprintf "f:%d" (int_of_n u)
  | VStr s -> "s:" ^ hex_of_bytes s

let show_row r = String.concat "," (List.map show_val r)
let sorted_rows rows = List.sort compare (List.map show_row rows)
let show_rows rows = String.concat ";" (sorted_rows rows)

let op_of = function
  | "eq" -> OEq | "ne" -> ONe | "lt" -> OLt | "le" -> OLe | "gt" -> OGt | "ge" -> OGe
  | s -> failwith ("bad op " ^ s)

let parse_jrpn (toks : string list) =
  let rec go st toks = match toks with
    | [] -> (match st with [p] -> p | [] -> JTrue | _ -> failwith "bad jrpn")
    | "true" :: r -> go (JTrue :: st) r
    | "and" :: r -> (match st with q :: p :: st' -> go (JAnd (p, q) :: st') r | _ -> failwith "jrpn and")
    | e :: r when String.length e > 1 && e.[0] = 'e' ->
      (match String.split_on_char '.' (String.sub e 1 (String.length e - 1)) with
       | [a; b] -> go (JColEq (nat_of_int (int_of_string a), nat_of_int (int_of_string b)) :: st) r
       | _ -> failwith "bad e token")
    | c :: o :: v :: r when String.length c > 1 && c.[0] = 'c' ->
      go (JCmp (nat_of_int (int_of_string (String.sub c 1 (String.length c - 1))), op_of o, parse_val v) :: st) r
    | _ -> failwith "bad jrpn token" in
  go [] toks

let ints s = if s = "-" then [] else List.map (fun x -> nat_of_int (int_of_string x)) (String.split_on_char ',' s)

let coltype_of = function "i" -> TInt | "f" -> TFloat | "s" -> TStr | s -> failwith ("bad type " ^ s)

(* the hash of the hash join is an input of the model; any function will do (collisions are re-checked) *)
let hash_of (v : value) : n = n_of_int (Hashtbl.hash (show_val v))

let rec shape_str (s : jshape) : string =
  match s with
  | ShScan -> "Scan"
  | ShHash (l, r) -> "HashJoin(" ^ shape_str l ^ "," ^ shape_str r ^ ")"
  | ShIndex l -> "IndexJoin(" ^ shape_str l ^ ")"
  | ShNest (l, r) -> "NestedLoopJoin(" ^ shape_str l ^ "," ^ shape_str r ^ ")"
  | ShSelect x -> "Selection(" ^ shape_str x ^ ")"
  | ShProject x -> "Projection(" ^ shape_str x ^ ")"

let b01 b = if b then "1" else "0"

let () =
  let tabs : (string, (coltype * bool) list * value list list) Hashtbl.t = Hashtbl.create 16 in
  let get n = try Hashtbl.find tabs n with Not_found -> failwith ("no table " ^ n) in
  iter_lines (fun line ->
    let ans =
      try
        match fields line with
        | "T" :: name :: types :: kinds :: _ ->
          let ts = List.map coltype_of (String.split_on_char ',' types) in
          let ks = List.map (fun k -> k <> "n") (String.split_on_char ',' kinds) in
          if List.length ts <> List.length ks then failwith "types/kinds";
          Hashtbl.replace tabs name (List.combine ts ks, []); "ok"
        | "X" :: name :: _ -> let (s, _) = get name in Hashtbl.replace tabs name (s, []); "ok"
        | "R" :: name :: vals :: _ ->
          let (s, rows) = get name in
          Hashtbl.replace tabs name (s, rows @ [List.map parse_val (String.split_on_char ',' vals)]); "ok"
        | (("Q" | "Q1") as cmd) :: names :: sel :: rpn ->
          let ns = String.split_on_char ',' names in
          let schs = List.map (fun n -> fst (get n)) ns in
          let ts = List.map (fun n -> snd (get n)) ns in
          let w = parse_jrpn rpn in
          let sl = ints sel in
          let hyps = join_hyps_ok schs ts w sl in
          let refrows = sorted_rows (join_sel sl w ts) in
          let refs = String.concat ";" refrows in
          if cmd = "Q1" then Printf.sprintf "ok hyps=%s ref=%s" (b01 hyps) refs
          else begin
            let cands = match join_candidates schs w sl with Some l -> l | None -> [] in
            let agree = List.for_all (fun p ->
                match run_join hash_of schs ts p with
                | Some out -> sorted_rows out = refrows
                | None -> false) cands in
            let shapes = List.sort_uniq compare (List.map (fun p -> shape_str (jshape_of p)) cands) in
            Printf.sprintf "ok hyps=%s ncand=%d agree=%s shapes=%s ref=%s"
              (b01 hyps) (List.length cands) (b01 agree) (String.concat ";" shapes) refs
          end
        | _ -> "err bad command"
      with Failure m -> "err " ^ m | Invalid_argument m -> "err " ^ m | Not_found -> "err not found" in
    print_string ans; print_newline ())
