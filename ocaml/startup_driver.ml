(* Model side of the start-up / LSN-floor correspondence (Model/Startup.v, theorems in Props/C20Startup.v).
   One history per input block; a block is a sequence of lines ended by a line "END":
     S                       process start (restart)
     K                       process killed
     P <page> <lsn>          write of a table page carrying that page LSN
     X <page> <value>        write of another page (value = the 4 bytes at the LSN offset)
     L <lsn>[:<page>],...    log write: the records it carries (records without LSN dropped); "L" alone = empty
     G                       log truncation
   Answer per block: "ok lines=<n> next=<nextLSN> phase=<n> lost=<n> floor_broken=<0|1>"
   or "bad code=<c> expected=<e> actual=<a> at=<line index>" (codes: see the model; 1 = LSN of an appended record
   differs from the model's next LSN, 2 = the first log write after the truncation carries another floor LSN).
   argv.(1) = "strict" to have page writes checked too (default lenient). *)
open Sdbmodel
open Util

let parse_line (l : string) : st_line option =
  match fields l with
  | ["S"] -> Some StLnStart
  | ["K"] -> Some StLnKill
  | ["G"] -> Some StLnGC
  | ["P"; p; v] -> Some (StLnPage (n_of_int (int_of_string p), n_of_int (int_of_string v)))
  | ["X"; p; v] -> Some (StLnOther (n_of_int (int_of_string p), n_of_int (int_of_string v)))
  | "L" :: rest ->
    let recs = List.concat_map (fun s -> List.filter (fun x -> x <> "") (String.split_on_char ',' s)) rest in
    Some (StLnLog (List.map (fun r ->
      match String.split_on_char ':' r with
      | [l] -> (n_of_int (int_of_string l), st_nopage)
      | l :: p :: _ -> (n_of_int (int_of_string l), n_of_int (int_of_string p))
      | [] -> failwith "bad record") recs))
  | _ -> None

let () =
  let strict = Array.length Sys.argv > 1 && Sys.argv.(1) = "strict" in
  let cur = ref [] in
  iter_lines (fun line ->
    let line = String.trim line in
    if line = "END" then begin
      let lines = List.rev !cur in
      cur := [];
      (match st_feed_all cfg_now strict st_init lines (n_of_int 0) with
       | (StOk s, k) ->
         Printf.printf "ok lines=%d next=%d phase=%d lost=%d floor_broken=%d\n" (int_of_n k) (int_of_n (st_next_lsn s))
           (int_of_n (st_phase_no s)) (List.length (st_lost_records s)) (if st_floor_broken s then 1 else 0)
       | (StBad (c, e, a), k) ->
         Printf.printf "bad code=%d expected=%d actual=%d at=%d\n" (int_of_n c) (int_of_n e) (int_of_n a) (int_of_n k))
    end else if line <> "" && line.[0] <> '#' then
      (match parse_line line with Some l -> cur := l :: !cur | None -> failwith ("bad line " ^ line)))
