(* Model side of C10: line "fp0;C fp;R;C fp;..." -> "oid:fp,oid:fp,..." predicted by the extracted catalog model *)
open Sdbmodel
open Util
let () =
  iter_lines (fun line ->
    match List.map String.trim (String.split_on_char ';' line) with
    | [] | [""] -> ()
    | fp0 :: ops ->
      let ops = List.filter_map (fun o -> match fields o with
        | "C" :: fp :: _ -> Some (Create (n_of_int (int_of_string fp)))
        | "R" :: _ -> Some Restart
        | _ -> None) ops in
      let c = crun1 reload ops (bootstrap (n_of_int (int_of_string fp0))) in
      print_endline (String.concat "," (List.map (fun (o, p) -> Printf.sprintf "%d:%d" (int_of_n o) (int_of_n p)) c.tabs)))
