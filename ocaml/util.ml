(* Trusted glue between text lines and the extracted datatypes. *)
open Sdbmodel

let rec pos_of_int (i : int) : positive =
  if i = 1 then XH
  else if i land 1 = 1 then XI (pos_of_int (i lsr 1))
  else XO (pos_of_int (i lsr 1))

let n_of_int (i : int) : n = if i = 0 then N0 else Npos (pos_of_int i)
let z_of_int (i : int) : z =
  if i = 0 then Z0 else if i > 0 then Zpos (pos_of_int i) else Zneg (pos_of_int (-i))

let rec int_of_pos (p : positive) : int =
  match p with XH -> 1 | XO q -> 2 * int_of_pos q | XI q -> 2 * int_of_pos q + 1
let int_of_n (x : n) : int = match x with N0 -> 0 | Npos p -> int_of_pos p
let int_of_z (x : z) : int =
  match x with Z0 -> 0 | Zpos p -> int_of_pos p | Zneg p -> - (int_of_pos p)

let rec nat_of_int (i : int) : nat = if i <= 0 then O else S (nat_of_int (i - 1))
let rec int_of_nat (x : nat) : int = match x with O -> 0 | S y -> 1 + int_of_nat y

(* arbitrary-size N -> lowercase hex without leading zeros ("0" for zero) *)
let hex_of_n (x : n) : string =
  match x with
  | N0 -> "0"
  | Npos p ->
    let bits = ref [] in
    let rec go p = match p with
      | XH -> bits := 1 :: !bits
      | XO q -> bits := 0 :: !bits; go q
      | XI q -> bits := 1 :: !bits; go q in
    (* go pushes LSB first, so after the walk the head is the MSB *)
    go p;
    let msb_first = !bits in
    let len = List.length msb_first in
    let pad = (4 - len mod 4) mod 4 in
    let l = List.init pad (fun _ -> 0) @ msb_first in
    let buf = Buffer.create 16 in
    let rec emit l = match l with
      | a :: b :: c :: d :: r ->
        Buffer.add_char buf "0123456789abcdef".[a*8 + b*4 + c*2 + d]; emit r
      | _ -> () in
    emit l; Buffer.contents buf

let bytes_of_hex (s : string) : n list =
  if s = "-" then []
  else List.init (String.length s / 2) (fun i -> n_of_int (int_of_string ("0x" ^ String.sub s (2*i) 2)))

let hex_of_bytes (l : n list) : string =
  if l = [] then "-"
  else String.concat "" (List.map (fun b -> Printf.sprintf "%02x" (int_of_n b)) l)

let int_of_cmp (c : comparison) : int = match c with Eq -> 0 | Lt -> -1 | Gt -> 1

let fields (s : string) : string list =
  List.filter (fun x -> x <> "") (String.split_on_char ' ' s)

let iter_lines (f : string -> unit) : unit =
  try while true do f (input_line stdin) done with End_of_file -> ()

(* deterministic row content shared with the Go harness (harness/c15.go rowBytes) *)
let row_bytes (n : int) (seed : int) : n list =
  List.init n (fun j -> n_of_int ((seed + j * 131 + (j / 256) * 17) land 0xff))

let fnv (l : n list) : int64 =
  List.fold_left (fun h b -> Int64.mul (Int64.logxor h (Int64.of_int (int_of_n b))) 1099511628211L)
    (-3750763034362895579L) (* 14695981039346656037 as signed int64 *) l

let digest (l : n list) : string = Printf.sprintf "%d:%016Lx" (List.length l) (fnv l)
