(* Model side of the C05 correspondence. One schedule per line: ops separated by ';'.
     R t x      read row x in transaction t
     W t x v    write value v to row x in transaction t
     C t        commit t
     A t        abort t
     I x v      (optional, harness set-up) row x holds v in the initial store
   Output: the event trace as space-separated tokens r:t:x:v w:t:x:v c:t a:t,
   then " | ", then the final store x=v,x=v sorted by row (every row the store
   knows: initial rows and rows ever written; a rolled-back write of a row that
   was absent leaves x=0). *)
open Sdbmodel
open Util

let num s = n_of_int (int_of_string s)

let show_event (e : event) : string =
  match e with
  | EvRead (t, x, v) -> Printf.sprintf "r:%d:%d:%d" (int_of_n t) (int_of_n x) (int_of_n v)
  | EvWrite (t, x, v) -> Printf.sprintf "w:%d:%d:%d" (int_of_n t) (int_of_n x) (int_of_n v)
  | EvCommit t -> Printf.sprintf "c:%d" (int_of_n t)
  | EvAbort t -> Printf.sprintf "a:%d" (int_of_n t)

(* the association list is read first-match (aget); keep the first entry per row *)
let show_store (st : (n * n) list) : string =
  let seen = Hashtbl.create 16 in
  let l = List.filter_map (fun (k, v) ->
    let k = int_of_n k in
    if Hashtbl.mem seen k then None else (Hashtbl.add seen k (); Some (k, int_of_n v))) st in
  let l = List.sort (fun (a, _) (b, _) -> compare a b) l in
  String.concat "," (List.map (fun (k, v) -> Printf.sprintf "%d=%d" k v) l)

let () =
  iter_lines (fun line ->
    let toks = List.filter (fun x -> String.trim x <> "") (String.split_on_char ';' line) in
    if toks <> [] then begin
      let init = ref [] in
      let ops = List.filter_map (fun op ->
        match fields (String.trim op) with
        | "R" :: t :: x :: _ -> Some (SRead (num t, num x))
        | "W" :: t :: x :: v :: _ -> Some (SWrite (num t, num x, num v))
        | "C" :: t :: _ -> Some (SCommit (num t))
        | "A" :: t :: _ -> Some (SAbort (num t))
        | "I" :: x :: v :: _ ->
          init := (int_of_string x, int_of_string v) :: List.remove_assoc (int_of_string x) !init; None
        | _ -> failwith "bad op") toks in
      let st0 = List.rev_map (fun (x, v) -> (n_of_int x, n_of_int v)) !init in
      let ((s : sstate), tr) = srun st0 ops in
      print_endline (String.concat " " (List.map show_event tr) ^ " | " ^ show_store s.store)
    end)
