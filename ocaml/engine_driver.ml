(* Model side of the C03 / C07 / C04 correspondence: the row-level engine model
   (Model/Engine.v).  One command per line, one answer line per command.

     icols 0,2                 reset: empty table, indexes on these columns ("-" = none)
     ins  t rid v,v,v          OpInsert      (rid = the slot the heap insert chose)
     del  t rid                OpDelete
     upd  t rid v,v,v          OpUpdate      (in place; complete new row)
     mov  t rid newrid v,v,v   OpUpdateMove  (relocation: old rid, new rid)
     read t rid                OpRead
     commit t | abort t
     rows                      rid=v,v,v[*];...   sorted by rid, * = delete-marked
     idx c                     v@rid;...          sorted (as strings)
     lookup c v                rid,rid,...        sorted: what the index on c returns for key v
     wset t                    the write set of t, oldest first

   Answers to operations: ok | aborted | row:v,v,v | skipped | illegal.
   Values: i:<n>  f:<bits>  s:<hex> (s:- = empty string)  n (NULL). *)
open Sdbmodel
open Util

let parse_val (s : string) : value =
  if s = "n" then VNull
  else match s.[0] with
    | 'i' -> VInt (z_of_int (int_of_string (String.sub s 2 (String.length s - 2))))
    | 'f' -> VFloat (n_of_int (int_of_string (String.sub s 2 (String.length s - 2))))
    | 's' -> VStr (bytes_of_hex (String.sub s 2 (String.length s - 2)))
    | _ -> failwith ("bad value " ^ s)

let show_val (v : value) : string =
  match v with
  | VNull -> "n"
  | VInt z -> Printf.sprintf "i:%d" (int_of_z z)
  | VFloat u -> Printf.sprintf "f:%d" (int_of_n u)
  | VStr s -> "s:" ^ hex_of_bytes s

let parse_row (s : string) : value list =
  if s = "-" then [] else List.map parse_val (String.split_on_char ',' s)
let show_row r = if r = [] then "-" else String.concat "," (List.map show_val r)

let num s = n_of_int (int_of_string s)
let ints s = if s = "-" then [] else List.map (fun x -> nat_of_int (int_of_string x)) (String.split_on_char ',' s)

let show_out = function
  | EOk -> "ok"
  | EAborted -> "aborted"
  | ERow r -> "row:" ^ show_row r
  | ESkipped -> "skipped"
  | EIllegal -> "illegal"

let show_rows (s : estate) : string =
  let l = List.map (fun (rid, (r, mk)) -> (int_of_n rid, r, mk)) s.rows in
  let l = List.sort (fun (a, _, _) (b, _, _) -> compare a b) l in
  String.concat ";" (List.map (fun (rid, r, mk) ->
    Printf.sprintf "%d=%s%s" rid (show_row r) (if mk then "*" else "")) l)

let show_idx (s : estate) (c : int) : string =
  let es = iget s.idx (nat_of_int c) in
  String.concat ";" (List.sort compare
    (List.map (fun (k, rid) -> Printf.sprintf "%s@%d" (show_val k) (int_of_n rid)) es))

let show_wrec = function
  | WIns (r, tp) -> Printf.sprintf "I %d %s" (int_of_n r) (show_row tp)
  | WDel (r, tp) -> Printf.sprintf "D %d %s" (int_of_n r) (show_row tp)
  | WUpd (r1, r2, o, n) -> Printf.sprintf "U %d %d %s %s" (int_of_n r1) (int_of_n r2) (show_row o) (show_row n)

let () =
  let st = ref (einit []) in
  let step o = let (s', out) = estep !st o in st := s'; show_out out in
  iter_lines (fun line ->
    let ans =
      try
        match fields line with
        | [] -> ""
        | "icols" :: cs :: _ -> st := einit (ints cs); "ok"
        | "icols" :: [] -> st := einit []; "ok"
        | "ins" :: t :: rid :: vs :: _ -> step (OpInsert (num t, num rid, parse_row vs))
        | "del" :: t :: rid :: _ -> step (OpDelete (num t, num rid))
        | "upd" :: t :: rid :: vs :: _ -> step (OpUpdate (num t, num rid, parse_row vs))
        | "mov" :: t :: rid :: nrid :: vs :: _ -> step (OpUpdateMove (num t, num rid, num nrid, parse_row vs))
        | "read" :: t :: rid :: _ -> step (OpRead (num t, num rid))
        | "commit" :: t :: _ -> step (OpCommit (num t))
        | "abort" :: t :: _ -> step (OpAbort (num t))
        | "rows" :: _ -> show_rows !st
        | "idx" :: c :: _ -> show_idx !st (int_of_string c)
        | "lookup" :: c :: v :: _ ->
          String.concat "," (List.map string_of_int (List.sort compare
            (List.map int_of_n (ilookup !st (nat_of_int (int_of_string c)) (parse_val v)))))
        | "wset" :: t :: _ ->
          let ws = try List.assoc (num t) !st.wsets with Not_found -> [] in
          String.concat ";" (List.map show_wrec ws)
        | _ -> "err:bad-command"
      with Failure m -> "err:" ^ m in
    print_endline ans; flush stdout)
