(* Model side of the C16 correspondence. One case per line: ops separated by ';'. *)
open Sdbmodel
open Util

let show_state (s : lstate) : string =
  let shl = List.filter (fun (_, l) -> l <> []) (List.map (fun (k, l) -> (int_of_n k, List.map int_of_n l)) s.sh) in
  (* the association list may hold several generations of a key only at the head; aset replaces in place *)
  let shl = List.sort (fun (a, _) (b, _) -> compare a b) shl in
  let exl = List.sort compare (List.map (fun (k, t) -> (int_of_n k, int_of_n t)) s.ex) in
  "[" ^ String.concat "/" (List.map (fun (k, l) -> Printf.sprintf "%d:%s" k (String.concat "," (List.map string_of_int l))) shl)
  ^ "][" ^ String.concat "/" (List.map (fun (k, t) -> Printf.sprintf "%d:%d" k t) exl) ^ "]"

let () =
  iter_lines (fun line ->
    let ops = List.filter (fun x -> String.trim x <> "") (String.split_on_char ';' line) in
    if ops <> [] then begin
      let st = ref linit in
      let outs = List.map (fun op ->
        let o = match fields op with
          | "S" :: t :: r :: _ -> LockS (n_of_int (int_of_string t), n_of_int (int_of_string r))
          | "X" :: t :: r :: _ -> LockX (n_of_int (int_of_string t), n_of_int (int_of_string r))
          | "U" :: t :: r :: _ -> Upgrade (n_of_int (int_of_string t), n_of_int (int_of_string r))
          | "R" :: t :: _ -> UnlockAll (n_of_int (int_of_string t))
          | _ -> failwith "bad op" in
        let (s', out) = lstep !st o in
        st := s';
        (match out with Granted -> "G" | Denied -> "D" | LPanic -> "P" | Done -> "-") ^ show_state s') ops in
      print_endline (String.concat " " outs)
    end)
