(* Model side of the row (tuple) codec correspondence: same case lines as `verifharness tuplecodec`
   (harness/tuplecodec.go), same answer lines, computed by the extracted Coq model
   (coq/Model/TupleCodec.v).  After the answer the model appends " | wf=<0|1> ok=<0|1> rb=<0|1>" for E
   lines: tc_row_wf, tc_row_ok (the hypotheses of the round-trip theorems) and whether every column
   reads back as tc_readback predicts; lib/tuplecorr.py strips that part before comparing.

     E <schema> <v1> <v2> ...      D <schema> <hex>
   <schema>: letters i f b s ("-" = no column); values: i:<n> f:<bits> b:<0|1> s:<hex|-> ni nf nb ns N n *)
open Sdbmodel
open Util

let col_of_char c =
  match c with
  | 'i' -> TcInt | 'f' -> TcFloat | 'b' -> TcBool | 's' -> TcStr
  | _ -> failwith "bad column type letter"

let schema_of s : tcol list =
  if s = "-" then [] else List.init (String.length s) (fun i -> col_of_char s.[i])

let val_of (sch : tcol list) (pos : int) (t : string) : tval =
  match t with
  | "N" | "ni" -> TvNull TcInt
  | "nf" -> TvNull TcFloat
  | "nb" -> TvNull TcBool
  | "ns" -> TvNull TcStr
  | "n" -> (match List.nth_opt sch pos with Some ty -> TvNull ty | None -> TvNull TcInt)
  | _ ->
    if String.length t < 3 || t.[1] <> ':' then failwith "bad value token";
    let a = String.sub t 2 (String.length t - 2) in
    (match t.[0] with
     | 'i' -> TvInt (z_of_int (int_of_string a))
     | 'f' -> TvFloat (n_of_int (int_of_string a))
     | 'b' -> TvBool (a <> "0")
     | 's' -> TvStr (bytes_of_hex a)
     | _ -> failwith "bad value token")

let tok_of (v : tval) : string =
  match v with
  | TvInt z -> Printf.sprintf "i:%d" (int_of_z z)
  | TvFloat u -> Printf.sprintf "f:%d" (int_of_n u)
  | TvBool b -> if b then "b:1" else "b:0"
  | TvStr s -> "s:" ^ hex_of_bytes s
  | TvNull TcInt -> "ni"
  | TvNull TcFloat -> "nf"
  | TvNull TcBool -> "nb"
  | TvNull TcStr -> "ns"

(* every column through GetValue and GetValueInBytes *)
let read_cols (sch : tcol list) (data : n list) : tval option list =
  List.init (List.length sch) (fun i -> tc_decode_col sch data (nat_of_int i))

let read_back (sch : tcol list) (data : n list) (cols : tval option list) : string =
  let n = List.length sch in
  if n = 0 then "cols=- gvb=-"
  else begin
    let idx = List.init n (fun i -> nat_of_int i) in
    let cs = List.map (fun c -> match c with None -> "panic" | Some v -> tok_of v) cols in
    let gvb = List.map (fun i ->
        match tc_get_value_in_bytes sch data i with None -> "panic" | Some b -> hex_of_bytes b) idx in
    "cols=" ^ String.concat "," cs ^ " gvb=" ^ String.concat "," gvb
  end

let b01 b = if b then "1" else "0"

let rec all_readback (cols : tval option list) (vals : tval list) : bool =
  match cols, vals with
  | c :: cs, v :: vs -> c = tc_readback v && all_readback cs vs
  | _, _ -> true

let case (line : string) : string =
  match fields line with
  | "E" :: s :: toks ->
    let sch = schema_of s in
    let vals = List.mapi (fun i t -> val_of sch i t) toks in
    let wf = tc_row_wf sch vals and ok = tc_row_ok sch vals in
    let extra rb = Printf.sprintf " | wf=%s ok=%s rb=%s" (b01 wf) (b01 ok) (b01 rb) in
    (match tc_encode_row sch vals, tc_tuple_size sch vals with
     | Some data, Some sz ->
       let cols = read_cols sch data in
       (* does every column read back as tc_readback says? (meaningful for wf rows) *)
       let rb = all_readback cols vals in
       Printf.sprintf "data=%s size=%d %s" (hex_of_bytes data) (int_of_n sz) (read_back sch data cols) ^ extra rb
     | _, _ -> "panic" ^ extra false)
  | "D" :: s :: h :: _ ->
    let sch = schema_of s and data = bytes_of_hex h in
    read_back sch data (read_cols sch data)
  | _ -> "badcase"

let () =
  iter_lines (fun line ->
      if String.trim line = "" || line.[0] = '#' then ()
      else begin
        (try print_string (case line) with _ -> print_string "badcase");
        print_char '\n';
        flush stdout
      end)
