(* Model side of the table heap correspondence (coq/Model/Heap.v vs lib/storage/access/table_heap*.go).
   usage: c14h_driver [go|gft|iter]     (go = the current code; gft / iter = the two regressions, for self tests)
   One command per line, one answer line each.  Inputs the model takes from the engine are on the line:
     new=<pid,..>   page ids the pool handed out during the call (in order)
     den=<p.s,..>   rids whose lock request by the calling transaction is refused
     mine=<p.s,..>  rids the calling transaction holds exclusively
   commands:
     newheap <first>
     ins <size> <seed> new= den= mine=          -> rid=<p.s> | nonewpage | panic
     mark <p.s> den= mine=                      -> ok=<0|1>
     upd <p.s> <size> <seed> new= den= mine=    -> ok=<0|1> inplace=<0|1> rid=<p.s> | nonewpage | panic
     get <p.s> den= mine=                       -> row=<size> | row=self | row=nil | panic
     scan den= mine=                            -> rows=<p.s:size,..> end=<end|abort|fuel|panic>
   the transaction manager's page-level calls (Commit / Abort of lib/storage/access/transaction_manager.go):
     papply <p.s>              TablePage.ApplyDelete = TableHeap.ApplyDelete without the reset of the hint
     rollback <p.s>            TableHeap.RollbackDelete
     pupd <p.s> <size> <seed>  TablePage.UpdateTuple(.., isRollbackOrUndo = true) (undo of an in-place update)
   every answer ends with
     bal=<0|1>    the call's action sequence releases every pin it takes and never unpins an unpinned page
     pins=<pid:n,..> the model's pin vector   chain=<pid,..>   hint=<pid> *)
open Sdbmodel
open Util

let rid_of (s : string) : n * n =
  match String.split_on_char '.' s with
  | [p; q] -> (n_of_int (int_of_string p), n_of_int (int_of_string q))
  | _ -> failwith ("bad rid " ^ s)

let show_rid (p, s) = Printf.sprintf "%d.%d" (int_of_n p) (int_of_n s)

let kv (key : string) (fs : string list) : string =
  let pre = key ^ "=" in
  let l = String.length pre in
  match List.filter (fun f -> String.length f >= l && String.sub f 0 l = pre) fs with
  | f :: _ -> String.sub f l (String.length f - l)
  | [] -> ""

let csv (s : string) : string list = List.filter (fun x -> x <> "") (String.split_on_char ',' s)
let rids_of (s : string) : (n * n) list = List.map rid_of (csv s)
let ids_of (s : string) : n list = List.map (fun x -> n_of_int (int_of_string x)) (csv s)

let () =
  let v = if Array.length Sys.argv > 1 then
      (match Sys.argv.(1) with
       | "gft" -> { gft_unpins_skipped = false; iter_skips_all_empty = true }
       | "iter" -> { gft_unpins_skipped = true; iter_skips_all_empty = false }
       | _ -> hp_go)
    else hp_go in
  let st = ref (hp_init N0) in
  let finish (res : string) (tr : hp_act list) =
    let ids = hp_ids (!st).hp_heap_of.hp_chain in
    let net = hp_trace_pins tr ids in
    let bal = hp_pin_safe [] tr && List.for_all (fun x -> x = O) net in
    Printf.printf "%s bal=%d pins=%s chain=%s hint=%d\n%!" res (if bal then 1 else 0)
      (String.concat "," (List.map2 (fun i c -> Printf.sprintf "%d:%d" (int_of_n i) (int_of_nat c)) ids (hp_pin_vector !st ids)))
      (String.concat "," (List.map (fun i -> string_of_int (int_of_n i)) ids))
      (int_of_n (!st).hp_heap_of.hp_hint) in
  let exec fs (op : hp_op) : hp_res * hp_act list =
    let ((st', r), tr) = hp_exec_l v (rids_of (kv "den" fs)) (rids_of (kv "mine" fs)) !st op in
    st := st'; (r, tr) in
  iter_lines (fun line ->
    let fs = fields line in
    let i = int_of_string in
    match fs with
    | [] -> ()
    | "newheap" :: first :: _ -> st := hp_init (n_of_int (i first)); finish "ok" []
    | "ins" :: size :: seed :: _ ->
      let (r, tr) = exec fs (HInsert (row_bytes (i size) (i seed), ids_of (kv "new" fs))) in
      finish (match r with
          | HR_Inserted (p, s) -> "rid=" ^ show_rid (p, s)
          | HR_NoNewPage -> "nonewpage" | HR_Panic -> "panic" | _ -> "unexpected") tr
    | "mark" :: rid :: _ ->
      let (p, s) = rid_of rid in
      let (r, tr) = exec fs (HMarkDelete (p, s)) in
      finish (match r with HR_Bool true -> "ok=1" | HR_Bool false -> "ok=0" | _ -> "unexpected") tr
    | "upd" :: rid :: size :: seed :: _ ->
      let (p, s) = rid_of rid in
      let (r, tr) = exec fs (HUpdate (p, s, row_bytes (i size) (i seed), false, ids_of (kv "new" fs))) in
      finish (match r with
          | HR_Updated (ip, q, t) -> Printf.sprintf "ok=1 inplace=%d rid=%s" (if ip then 1 else 0) (show_rid (q, t))
          | HR_Fail -> "ok=0" | HR_NoNewPage -> "nonewpage" | HR_Panic -> "panic" | _ -> "unexpected") tr
    | "get" :: rid :: _ ->
      let (p, s) = rid_of rid in
      let (r, tr) = exec fs (HGetTuple (p, s)) in
      finish (match r with
          | HR_Row (_, _, b) -> Printf.sprintf "row=%d" (List.length b)
          | HR_SelfDeleted _ -> "row=self" | HR_Err -> "row=nil" | HR_Panic -> "panic" | _ -> "unexpected") tr
    | "scan" :: _ ->
      let (r, tr) = exec fs HScan in
      finish (match r with
          | HR_Scan (rows, e) ->
            Printf.sprintf "rows=%s end=%s"
              (String.concat "," (List.map (fun ((p, s), b) -> Printf.sprintf "%s:%d" (show_rid (p, s)) (List.length b)) rows))
              (match e with HE_End -> "end" | HE_Abort -> "abort" | HE_Fuel -> "fuel" | HE_Panic -> "panic")
          | _ -> "unexpected") tr
    | "papply" :: rid :: _ ->
      let (p, s) = rid_of rid in
      let hint = (!st).hp_heap_of.hp_hint in
      let ((st', r), tr) = hp_exec_l v [] [] !st (HApplyDelete (p, s)) in
      (* the transaction manager calls the page, not the heap: the hint stays *)
      st := { hp_heap_of = { hp_chain = st'.hp_heap_of.hp_chain; hp_hint = hint }; hp_pins = st'.hp_pins };
      finish (match r with HR_Done -> "ok" | HR_Panic -> "panic" | _ -> "unexpected") tr
    | "rollback" :: rid :: _ ->
      let (p, s) = rid_of rid in
      let ((st', r), tr) = hp_exec_l v [] [] !st (HRollbackDelete (p, s)) in
      st := st';
      finish (match r with HR_Done -> "ok" | HR_Panic -> "panic" | _ -> "unexpected") tr
    | "pupd" :: rid :: size :: seed :: _ ->
      let (p, s) = rid_of rid in
      let h = (!st).hp_heap_of in
      (match hp_find h.hp_chain p with
       | None -> finish "panic" []
       | Some pg ->
         let (a', o) = astep pg.hp_rows (PUpdate (s, row_bytes (i size) (i seed), true)) in
         (match o with
          | OUpdated _ ->
            st := { hp_heap_of = { hp_chain = hp_set_rows h.hp_chain p a'; hp_hint = h.hp_hint }; hp_pins = (!st).hp_pins };
            finish "ok" []
          | _ -> finish "panic" []))
    | _ -> finish "bad-command" [])
