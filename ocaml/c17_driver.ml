(* Model side of the C17 correspondence: ONE integer-keyed index (the wrapper
   of Model/IndexWrap.v over the ordered-container specification).
   One operation per line:
     ins <z> <page> <slot>
     del <z> <page> <slot>
     upd <z> <page> <slot> <z2> <page2> <slot2>
     scan <z>                 -> ok:<page>.<slot>;<page>.<slot>;...   (container order)
     range <lo|-> <hi|->      -> ok:<z>@<page>.<slot>;...             ("-" = unbounded)
     reset
   ins/del/upd/reset answer "ok"; entries are separated by ';' (no trailing
   separator, an empty result is "ok:"); blank lines and lines starting with
   '#' are skipped; anything else answers "err:bad op". *)
open Sdbmodel
open Util

let zi (s : string) : z = z_of_int (int_of_string s)
let ni (s : string) : n = n_of_int (int_of_string s)

let show_rid ((p, s) : rid) : string = Printf.sprintf "%d.%d" (int_of_z p) (int_of_n s)


(* one closure record per key type: argv.(1) = i (default) | f (keys as IEEE-754 bit patterns) | s (keys as hex, "-" = empty) *)
type ops = {
  reset : unit -> unit;
  ins : string -> rid -> unit;
  del : string -> rid -> unit;
  upd : string -> rid -> string -> rid -> unit;
  scan : string -> rid list;
  range : string -> string -> (string * rid) list;
}

(* Besides the ordered-container specification the same composite keys go through the block skip-list model
   (Model/SkipList.v, capacity 4 so that nodes split and disappear all the time; the level of a new node is an input
   of the model: any value, here a counter): its level-0 walk must equal the specification's content after every
   operation (theorem skiplist_refines_container, re-evaluated on the real operation sequences). *)
let mk (type k) (parse : string -> k) (show : k -> string) (key_of : k -> rid -> n list)
    (ins : k -> rid -> omap -> omap) (del : k -> rid -> omap -> omap)
    (upd : k -> rid -> k -> rid -> omap -> omap) (scan : k -> omap -> rid list)
    (range : k option -> k option -> omap -> (k * rid) list) : ops =
  let st = ref om_empty in
  let sl = ref (sl_empty (nat_of_int 4) (nat_of_int 4)) in
  let lv = ref 0 in
  let sl_do f = (match f !sl with Ok0 s' -> sl := s' | Err _ -> failwith "skip-list model: out of fuel / dangling") in
  let nops = ref 0 in
  let agree () =
    incr nops;
    (* the full comparison is linear in the number of entries: every operation while the index is small, every 25th later *)
    if List.length !st <= 200 || !nops mod 25 = 0 then
    (match sl_to_list !sl with
     | Ok0 l -> if l <> !st || not (sl_checkb !sl) then failwith "skip-list model disagrees with the container specification"
     | Err _ -> failwith "skip-list model: walk failed") in
  let sl_ins k r = incr lv; sl_do (sl_insert (key_of k r) r (nat_of_int (1 + !lv mod 4))) in
  let sl_del k r = sl_do (sl_remove (key_of k r)) in
  let bound s = if s = "-" then None else Some (parse s) in
  { reset = (fun () -> st := om_empty; sl := sl_empty (nat_of_int 4) (nat_of_int 4));
    ins = (fun k r -> st := ins (parse k) r !st; sl_ins (parse k) r; agree ());
    del = (fun k r -> st := del (parse k) r !st; sl_del (parse k) r; agree ());
    upd = (fun k r k2 r2 -> st := upd (parse k) r (parse k2) r2 !st; sl_del (parse k) r; sl_ins (parse k2) r2; agree ());
    scan = (fun k -> scan (parse k) !st);
    range = (fun lo hi -> List.map (fun (k, r) -> (show k, r)) (range (bound lo) (bound hi) !st)) }

let () =
  let ty = if Array.length Sys.argv > 1 then Sys.argv.(1) else "i" in
  let o = match ty with
    | "f" -> mk ni (fun b -> string_of_int (int_of_n b)) (ix_key enc_f32_key) ixf_insert ixf_delete ixf_update ixf_scan_key ixf_range
    | "s" -> mk (fun h -> if h = "-" then [] else bytes_of_hex h) (fun b -> if b = [] then "-" else hex_of_bytes b) (ix_key enc_str_key)
               ixs_insert ixs_delete ixs_update ixs_scan_key ixs_range
    | _ -> mk zi (fun z -> string_of_int (int_of_z z)) (ix_key enc_int_key) ixi_insert ixi_delete ixi_update ixi_scan_key ixi_range in
  let rid p s = (zi p, ni s) in
  iter_lines (fun line ->
    let line = String.trim line in
    if line <> "" && line.[0] <> '#' then begin
      let out =
        try
          match fields line with
          | ["reset"] -> o.reset (); "ok"
          | ["ins"; k; p; s] -> o.ins k (rid p s); "ok"
          | ["del"; k; p; s] -> o.del k (rid p s); "ok"
          | ["upd"; k; p; s; k2; p2; s2] -> o.upd k (rid p s) k2 (rid p2 s2); "ok"
          | ["scan"; k] -> "ok:" ^ String.concat ";" (List.map show_rid (o.scan k))
          | ["range"; lo; hi] ->
            "ok:" ^ String.concat ";" (List.map (fun (k, r) -> Printf.sprintf "%s@%s" k (show_rid r)) (o.range lo hi))
          | _ -> "err:bad op"
        with Failure m -> if String.length m > 9 && String.sub m 0 9 = "skip-list" then "err:" ^ m else "err:bad op" in
      print_endline out
    end)
