(* Model side of the C17 correspondence: ONE integer-keyed index (the wrapper
   of Model/IndexWrap.v over the ordered-container specification).
   One operation per line:
     ins <z> <page> <slot>
     del <z> <page> <slot>
     upd <z> <page> <slot> <z2> <page2> <slot2>
     scan <z>                 -> ok:<page>.<slot>;<page>.<slot>;...   (container order)
     range <lo|-> <hi|->      -> ok:<z>@<page>.<slot>;...             ("-" = unbounded)
     reset
   ins/del/upd/reset answer "ok"; entries are separated by ';' (no trailing
   separator, an empty result is "ok:"); blank lines and lines starting with
   '#' are skipped; anything else answers "err:bad op". *)
open Sdbmodel
open Util

let zi (s : string) : z = z_of_int (int_of_string s)
let ni (s : string) : n = n_of_int (int_of_string s)

let show_rid ((p, s) : rid) : string = Printf.sprintf "%d.%d" (int_of_z p) (int_of_n s)


(* one closure record per key type: argv.(1) = i (default) | f (keys as IEEE-754 bit patterns) | s (keys as hex, "-" = empty) *)
type ops = {
  reset : unit -> unit;
  ins : string -> rid -> unit;
  del : string -> rid -> unit;
  upd : string -> rid -> string -> rid -> unit;
  scan : string -> rid list;
  range : string -> string -> (string * rid) list;
}

let mk (type k) (parse : string -> k) (show : k -> string)
    (ins : k -> rid -> omap -> omap) (del : k -> rid -> omap -> omap)
    (upd : k -> rid -> k -> rid -> omap -> omap) (scan : k -> omap -> rid list)
    (range : k option -> k option -> omap -> (k * rid) list) : ops =
  let st = ref om_empty in
  let bound s = if s = "-" then None else Some (parse s) in
  { reset = (fun () -> st := om_empty);
    ins = (fun k r -> st := ins (parse k) r !st);
    del = (fun k r -> st := del (parse k) r !st);
    upd = (fun k r k2 r2 -> st := upd (parse k) r (parse k2) r2 !st);
    scan = (fun k -> scan (parse k) !st);
    range = (fun lo hi -> List.map (fun (k, r) -> (show k, r)) (range (bound lo) (bound hi) !st)) }

let () =
  let ty = if Array.length Sys.argv > 1 then Sys.argv.(1) else "i" in
  let o = match ty with
    | "f" -> mk ni (fun b -> string_of_int (int_of_n b)) ixf_insert ixf_delete ixf_update ixf_scan_key ixf_range
    | "s" -> mk (fun h -> if h = "-" then [] else bytes_of_hex h) (fun b -> if b = [] then "-" else hex_of_bytes b)
               ixs_insert ixs_delete ixs_update ixs_scan_key ixs_range
    | _ -> mk zi (fun z -> string_of_int (int_of_z z)) ixi_insert ixi_delete ixi_update ixi_scan_key ixi_range in
  let rid p s = (zi p, ni s) in
  iter_lines (fun line ->
    let line = String.trim line in
    if line <> "" && line.[0] <> '#' then begin
      let out =
        try
          match fields line with
          | ["reset"] -> o.reset (); "ok"
          | ["ins"; k; p; s] -> o.ins k (rid p s); "ok"
          | ["del"; k; p; s] -> o.del k (rid p s); "ok"
          | ["upd"; k; p; s; k2; p2; s2] -> o.upd k (rid p s) k2 (rid p2 s2); "ok"
          | ["scan"; k] -> "ok:" ^ String.concat ";" (List.map show_rid (o.scan k))
          | ["range"; lo; hi] ->
            "ok:" ^ String.concat ";" (List.map (fun (k, r) -> Printf.sprintf "%s@%s" k (show_rid r)) (o.range lo hi))
          | _ -> "err:bad op"
        with Failure _ -> "err:bad op" in
      print_endline out
    end)
