(* Model side of the page-id allocation correspondence (coq/Model/PageAlloc.v).
   One command per line, one answer line per command:
     reset
     new | newheap | release <p> <now|flag|none> | logdealloc <p> | evict <p> | wrote <p> | flushlog | probe
     clean <order>                     order: comma separated ids, "-" for none
     crash <kept> <survivors> <order>
   Default: the model of the current engine (pa_step true).  Started with the argument "prefix" the start-up
   before the repair d99b876 is used (pa_step false).  img: pa_image_ok of that variant (current engine: the
   owned half only).
   Answer: <id=N | ok | bad> ok=<client contract holds for this op> img=<restart image well formed>
           reusable= flagged= inuse= pending= next= fsize= durable= log=<D/R/H ids>
           fresh=<pa_new_fresh> nodup=<pa_inuse_nodup> reusok=<pa_reusable_ok>   (checkers on the state AFTER the op) *)
open Sdbmodel

(* conversions (same as util.ml; kept local so that the driver also builds against a private extraction) *)
let rec pos_of_int (i : int) : positive =
  if i = 1 then XH
  else if i land 1 = 1 then XI (pos_of_int (i lsr 1))
  else XO (pos_of_int (i lsr 1))
let n_of_int (i : int) : n = if i = 0 then N0 else Npos (pos_of_int i)
let rec int_of_pos (p : positive) : int =
  match p with XH -> 1 | XO q -> 2 * int_of_pos q | XI q -> 2 * int_of_pos q + 1
let int_of_n (x : n) : int = match x with N0 -> 0 | Npos p -> int_of_pos p
let rec nat_of_int (i : int) : nat = if i <= 0 then O else S (nat_of_int (i - 1))
let rec int_of_nat (x : nat) : int = match x with O -> 0 | S y -> 1 + int_of_nat y

let fields (s : string) : string list =
  List.filter (fun x -> x <> "") (String.split_on_char ' ' s)

let ids (s : string) : n list =
  if s = "-" || s = "" then []
  else List.map (fun x -> n_of_int (int_of_string x)) (List.filter (fun x -> x <> "") (String.split_on_char ',' s))

let show_ids (l : n list) : string = String.concat "," (List.map (fun x -> string_of_int (int_of_n x)) l)
let b2i b = if b then 1 else 0

let show_rec (r : pa_rec) : string =
  match r with
  | RDealloc p -> "D" ^ string_of_int (int_of_n p)
  | RReuse p -> "R" ^ string_of_int (int_of_n p)
  | RNewHeap p -> "H" ^ string_of_int (int_of_n p)

let mode_of (s : string) : pa_mode =
  match s with "now" -> MNow | "flag" -> MFlag | "none" -> MNone | _ -> failwith "bad mode"

let () =
  (* default: the current engine (pa_step true = pa_now, Redo with the repair d99b876);
     argument "prefix": the start-up before that repair (pa_step false = pa_prefix) *)
  let fx = not (Array.length Sys.argv > 1 && Sys.argv.(1) = "prefix") in
  let st = ref pa_init in
  try
    while true do
      let line = input_line stdin in
      match fields line with
      | [] -> ()
      | "reset" :: _ -> st := pa_init; print_endline "ok"
      | f ->
        let i s = n_of_int (int_of_string s) in
        let op =
          match f with
          | "new" :: _ -> ONew
          | "newheap" :: _ -> ONewHeap
          | "release" :: p :: m :: _ -> ORelease (i p, mode_of m)
          | "logdealloc" :: p :: _ -> OLogDealloc (i p)
          | "evict" :: p :: _ -> OEvict (i p)
          | "wrote" :: p :: _ -> OWrote (i p)
          | "flushlog" :: _ -> OFlushLog
          | "probe" :: _ -> OProbe
          | "clean" :: o :: _ -> OCleanRestart (ids o)
          | "clean" :: [] -> OCleanRestart []
          | "crash" :: k :: s :: o :: _ -> OCrashRestart (nat_of_int (int_of_string k), ids s, ids o)
          | _ -> failwith ("bad op: " ^ line) in
        let cok = pa_client_ok !st op and iok = pa_image_ok fx !st op in
        let (s', out) = pa_step fx !st op in
        st := s';
        let o = match out with PONew p -> "id=" ^ string_of_int (int_of_n p) | POOk -> "ok" | POBad -> "bad" in
        Printf.printf "%s ok=%d img=%d reusable=%s flagged=%s inuse=%s pending=%s next=%d fsize=%d durable=%d log=%s fresh=%d nodup=%d reusok=%d\n%!"
          o (b2i cok) (b2i iok) (show_ids s'.pa_reusable)
          (String.concat "," (List.map string_of_int (List.sort compare (List.map int_of_n s'.pa_flagged))))
          (show_ids s'.pa_inuse) (show_ids s'.pa_pending) (int_of_n s'.pa_next) (int_of_n s'.pa_fsize)
          (int_of_nat s'.pa_durable) (String.concat "," (List.map show_rec s'.pa_log))
          (b2i (pa_new_fresh s')) (b2i (pa_inuse_nodup s')) (b2i (pa_reusable_ok s'))
    done
  with End_of_file -> ()
