(* Model side of the clock replacer correspondence (coq/Model/Clock.v against buffer.ClockReplacer,
   harness/clock.go, lib/clockcorr.py).  Same line protocol as `verifharness clock`, one answer line per input line:
     # <poolsize>  -> new          (clock_init)
     V             -> <frame id> | none
     P <f>         -> ok
     U <f>         -> ok | full
     S             -> <n>
     D             -> <key>:<bit> ... | hand=<key> | size=<n> map=<n>
   `undef` is the model's AUndef (it cannot follow the Go code); never expected. *)
open Sdbmodel
open Util

let show_ans (a : clk_ans) : string =
  match a with
  | AVictim f -> string_of_int (int_of_n f)
  | ANone -> "none"
  | AOk -> "ok"
  | AFull -> "full"
  | ASize k -> string_of_int (int_of_n k)
  | AUndef -> "undef"

let show_dump (st : clock) : string =
  let (ring, hand) = clock_dump st in
  let r = match ring with
    | [] -> "-"
    | _ -> String.concat " " (List.map (fun (k, b) -> Printf.sprintf "%d:%d" (int_of_n k) (if b then 1 else 0)) ring) in
  let h = match hand with
    | None -> "-"
    | Some None -> "stale"
    | Some (Some k) -> string_of_int (int_of_n k) in
  Printf.sprintf "%s | hand=%s | size=%d map=%d" r h (int_of_n st.c_size) (List.length st.c_map)

let () =
  let st = ref None in
  let say s = print_string s; print_char '\n'; flush stdout in
  iter_lines (fun line ->
    match fields (String.trim line) with
    | [] -> ()
    | "#" :: k :: _ -> st := Some (clock_init (n_of_int (int_of_string k))); say "new"
    | f ->
      (match !st with
       | None -> say "bad"
       | Some s ->
         let step o = let (s', a) = clock_step s o in st := Some s'; say (show_ans a) in
         (match f with
          | "V" :: _ -> step CVictim
          | "P" :: x :: _ -> step (CPin (n_of_int (int_of_string x)))
          | "U" :: x :: _ -> step (CUnpin (n_of_int (int_of_string x)))
          | "S" :: _ -> step CSize
          | "D" :: _ -> say (show_dump s)
          | _ -> say "bad")))
