(* Model side of the C18 correspondence: same case lines as the Go harness,
   same output format, computed by the extracted Coq model. *)
open Sdbmodel
open Util

let i = int_of_string
let rid (r : z * n) = Printf.sprintf "%d,%d" (int_of_z (fst r)) (int_of_n (snd r))
let maxlen = N.to_nat btree_max_key_len

let fill_str k =
  match fill_zero k maxlen with
  | None -> "panic"
  | Some k' -> hex_of_bytes k' ^ " elim=" ^ hex_of_bytes (elim_zero k')

let () =
  iter_lines (fun line ->
    match fields line with
    | [] -> ()
    | "I" :: z :: p :: s :: _ ->
      let e = enc_int_key (z_of_int (i z)) (z_of_int (i p)) (n_of_int (i s)) in
      let d = int_of_z (dec_int_key e) in
      Printf.printf "enc=%s dec=%d dec2=%d\n" (hex_of_bytes e) d d
    | "F" :: u :: p :: s :: _ ->
      let e = enc_f32_key (n_of_int (i u)) (z_of_int (i p)) (n_of_int (i s)) in
      Printf.printf "enc=%s dec=%d\n" (hex_of_bytes e) (int_of_n (dec_f32_key e))
    | "S" :: h :: p :: s :: _ ->
      let e = enc_str_key (bytes_of_hex h) (z_of_int (i p)) (n_of_int (i s)) in
      Printf.printf "enc=%s dec=%s fill=%s\n" (hex_of_bytes e) (hex_of_bytes (dec_str_key e)) (fill_str e)
    | "R" :: p :: s :: _ ->
      let p = z_of_int (i p) and s = n_of_int (i s) in
      let p64 = pack64 p s in
      let p8 = pack8 p s in
      let p32 = pack32 p s in
      Printf.printf "p64=%s u64=%s p8=%s u8=%s p32=%s u32=%s\n"
        (hex_of_n p64) (rid (unpack64 p64)) (hex_of_bytes p8) (rid (unpack8 p8))
        (hex_of_n p32) (rid (unpack32 p32))
    | "PI" :: z1 :: p1 :: s1 :: z2 :: p2 :: s2 :: _ ->
      let e1 = enc_int_key (z_of_int (i z1)) (z_of_int (i p1)) (n_of_int (i s1)) in
      let e2 = enc_int_key (z_of_int (i z2)) (z_of_int (i p2)) (n_of_int (i s2)) in
      let c = int_of_cmp (lex_cmp e1 e2) in
      Printf.printf "bytes=%d val=%d native=%d\n" c c
        (int_of_cmp (Z.compare (z_of_int (i z1)) (z_of_int (i z2))))
    | "PF" :: u1 :: p1 :: s1 :: u2 :: p2 :: s2 :: _ ->
      let n1 = n_of_int (i u1) and n2 = n_of_int (i u2) in
      let e1 = enc_f32_key n1 (z_of_int (i p1)) (n_of_int (i s1)) in
      let e2 = enc_f32_key n2 (z_of_int (i p2)) (n_of_int (i s2)) in
      let c = int_of_cmp (lex_cmp e1 e2) in
      let nat = if f_is_nan n1 || f_is_nan n2 then 0 else int_of_cmp (f_cmp n1 n2) in
      Printf.printf "bytes=%d val=%d native=%d\n" c c nat
    | "PS" :: h1 :: p1 :: s1 :: h2 :: p2 :: s2 :: _ ->
      let b1 = bytes_of_hex h1 and b2 = bytes_of_hex h2 in
      let e1 = enc_str_key b1 (z_of_int (i p1)) (n_of_int (i s1)) in
      let e2 = enc_str_key b2 (z_of_int (i p2)) (n_of_int (i s2)) in
      let c = int_of_cmp (lex_cmp e1 e2) in
      let padded = match fill_zero e1 maxlen, fill_zero e2 maxlen with
        | Some k1, Some k2 -> string_of_int (int_of_cmp (lex_cmp k1 k2))
        | _ -> "panic" in
      Printf.printf "bytes=%d val=%d native=%d padded=%s\n" c c (int_of_cmp (lex_cmp b1 b2)) padded
    | _ -> print_string "badcase\n")
