(* Reference side for C06/C11/C03/C04/C07/C09: keeps tables and evaluates statements with
   the extracted reference semantics (Model/SqlRef.v).
   Commands (one per line, one answer line each):
     T <name> <ncols>                create empty table
     R <name> v,v,...                append a row
     S <name> <cols c,c,..> <rpn>    select; answer "ok:" rows sorted
     U <name> <c=v,c=v> <rpn>        update (answer ok:)
     D <name> <rpn>                  delete (answer ok:)
     J <names n,n,..> <cols> <jrpn>  join select over the named tables (columns of the concatenated row)
     C <name>                        contents, rows sorted
     X <name>                        drop all rows
   values: i:<n> f:<bits> s:<hex|-> n      rpn: tokens  "c<k>" op lit -> comparison ; and ; or ; true
   jrpn: "e<k1>.<k2>" column equality ; "c<k>" op lit ; and ; true *)
open Sdbmodel
open Util

let parse_val (s : string) : value =
  if s = "n" then VNull
  else match s.[0] with
    | 'i' -> VInt (z_of_int (int_of_string (String.sub s 2 (String.length s - 2))))
    | 'f' -> VFloat (n_of_int (int_of_string (String.sub s 2 (String.length s - 2))))
    | 's' -> VStr (bytes_of_hex (String.sub s 2 (String.length s - 2)))
    | _ -> failwith ("bad value " ^ s)

let show_val (v : value) : string =
  match v with
  | VNull -> "n"
  | VInt z -> Printf.sprintf "i:%d" (int_of_z z)
  | VFloat u -> Printf.sprintf "f:%d" (int_of_n u)
  | VStr s -> "s:" ^ hex_of_bytes s

let show_row r = String.concat "," (List.map show_val r)
let show_rows rows = String.concat ";" (List.sort compare (List.map show_row rows))

let op_of = function
  | "eq" -> OEq | "ne" -> ONe | "lt" -> OLt | "le" -> OLe | "gt" -> OGt | "ge" -> OGe
  | s -> failwith ("bad op " ^ s)

let parse_rpn (toks : string list) =
  let rec go st toks = match toks with
    | [] -> (match st with [p] -> p | [] -> PTrue | _ -> failwith "bad rpn")
    | "true" :: r -> go (PTrue :: st) r
    | "and" :: r -> (match st with q :: p :: st' -> go (PAnd (p, q) :: st') r | _ -> failwith "rpn and")
    | "or" :: r -> (match st with q :: p :: st' -> go (POr (p, q) :: st') r | _ -> failwith "rpn or")
    | c :: o :: v :: r when String.length c > 1 && c.[0] = 'c' ->
      go (PCmp (nat_of_int (int_of_string (String.sub c 1 (String.length c - 1))), op_of o, parse_val v) :: st) r
    | _ -> failwith "bad rpn token" in
  go [] toks

let parse_jrpn (toks : string list) =
  let rec go st toks = match toks with
    | [] -> (match st with [p] -> p | [] -> JTrue | _ -> failwith "bad jrpn")
    | "true" :: r -> go (JTrue :: st) r
    | "and" :: r -> (match st with q :: p :: st' -> go (JAnd (p, q) :: st') r | _ -> failwith "jrpn and")
    | e :: r when String.length e > 1 && e.[0] = 'e' ->
      (match String.split_on_char '.' (String.sub e 1 (String.length e - 1)) with
       | [a; b] -> go (JColEq (nat_of_int (int_of_string a), nat_of_int (int_of_string b)) :: st) r
       | _ -> failwith "bad e token")
    | c :: o :: v :: r when String.length c > 1 && c.[0] = 'c' ->
      go (JCmp (nat_of_int (int_of_string (String.sub c 1 (String.length c - 1))), op_of o, parse_val v) :: st) r
    | _ -> failwith "bad jrpn token" in
  go [] toks

let ints s = if s = "-" then [] else List.map (fun x -> nat_of_int (int_of_string x)) (String.split_on_char ',' s)

let () =
  let tabs : (string, value list list) Hashtbl.t = Hashtbl.create 16 in
  let get n = try Hashtbl.find tabs n with Not_found -> [] in
  iter_lines (fun line ->
    let ans =
      try
        match fields line with
        | "T" :: name :: _ -> Hashtbl.replace tabs name []; "ok:"
        | "X" :: name :: _ -> Hashtbl.replace tabs name []; "ok:"
        | "R" :: name :: vals :: _ ->
          Hashtbl.replace tabs name (get name @ [List.map parse_val (String.split_on_char ',' vals)]); "ok:"
        | "S" :: name :: cols :: rpn -> "ok:" ^ show_rows (sel (ints cols) (parse_rpn rpn) (get name))
        | "U" :: name :: asg :: rpn ->
          let a = List.map (fun e -> match String.index_opt e '=' with
              | Some k -> (nat_of_int (int_of_string (String.sub e 0 k)), parse_val (String.sub e (k + 1) (String.length e - k - 1)))
              | None -> failwith "bad assignment") (String.split_on_char ',' asg) in
          Hashtbl.replace tabs name (upd a (parse_rpn rpn) (get name)); "ok:"
        | "D" :: name :: rpn -> Hashtbl.replace tabs name (del (parse_rpn rpn) (get name)); "ok:"
        | "J" :: names :: cols :: jrpn ->
          let ts = List.map get (String.split_on_char ',' names) in
          "ok:" ^ show_rows (join_sel (ints cols) (parse_jrpn jrpn) ts)
        | "C" :: name :: _ -> "ok:" ^ show_rows (get name)
        | _ -> "err:bad-command"
      with Failure m -> "err:" ^ m in
    print_endline ans; flush stdout)
