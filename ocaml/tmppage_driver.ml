(* Model side of the temporary tuple page correspondence (C11): coq/Model/TmpPage.v.
   Same commands and answers as `verifharness tmppage` (harness/tmppage.go):
     init <pageid>        -> ok
     ins <size> <seed>    -> ok <offset> <pageid> | full | panic        (data = row_bytes size seed)
     ins <size> x<hex>    ... explicit data (x- for none)
     get <offset>         -> <hex> | panic
     free                 -> <n>
     setfree <n>          -> ok
     dump                 -> hex of the page
   With argument "weak" the room check without the "+4" (tp_insert_weak_go) is used instead
   (only to show the check of lib/tmppagecorr.py tells the two apart).
   Extra command, model only (no Go counterpart; used by the examples in lib/tmppagecorr.py):
     all <size>,<seed> <size>,<seed> ...   tp_insert_all -> "<npages> | loc loc ..." with loc = k:off | stale:k:off | stale:none | panic *)
open Sdbmodel
open Util

let n_of_int32_string (s : string) : n =
  let v = int_of_string s in
  n_of_int (if v < 0 then v + 4294967296 else v)

let int32_of_n (x : n) : int =
  let v = int_of_n x in if v >= 2147483648 then v - 4294967296 else v

let hex_plain (l : n list) : string =
  String.concat "" (List.map (fun b -> Printf.sprintf "%02x" (int_of_n b)) l)

let data_of (size : string) (spec : string) : n list =
  let n = int_of_string size in
  let d =
    if String.length spec > 0 && spec.[0] = 'x' then
      bytes_of_hex (String.sub spec 1 (String.length spec - 1))
    else row_bytes n (int_of_string spec) in
  if List.length d <> n then failwith "badsize" else d

let () =
  let weak = Array.length Sys.argv > 1 && Sys.argv.(1) = "weak" in
  let insert = if weak then tp_insert_weak_go else tp_insert_go in
  let page = ref (tp_init N0) in
  iter_lines (fun line ->
    let ans =
      try
        match fields line with
        | [] -> None
        | "init" :: id :: _ -> page := tp_init (n_of_int32_string id); Some "ok"
        | "ins" :: size :: spec :: _ ->
          (match insert !page (data_of size spec) with
           | TpFull -> Some "full"
           | TpPanic -> Some "panic"
           | TpOk (p, off) ->
             page := p;
             Some (Printf.sprintf "ok %d %d" (int_of_n off) (int32_of_n (tp_page_id p))))
        | "get" :: off :: _ ->
          (match tp_get_go !page (n_of_int (int_of_string off)) with
           | None -> Some "panic"
           | Some d -> Some (hex_of_bytes d))
        | "free" :: _ -> Some (string_of_int (int_of_n (tp_free !page)))
        | "setfree" :: v :: _ -> page := tp_set_free !page (n_of_int (int_of_string v)); Some "ok"
        | "dump" :: _ -> Some (hex_plain !page)
        | "all" :: items ->
          let ds = List.map (fun it ->
            match String.split_on_char ',' it with
            | [s; seed] -> row_bytes (int_of_string s) (int_of_string seed)
            | _ -> failwith "baditem") items in
          let (pgs, locs) = tp_insert_all ds in
          let show = function
            | TpLoc (k, o) -> Printf.sprintf "%d:%d" (int_of_nat k) (int_of_n o)
            | TpStale None -> "stale:none"
            | TpStale (Some (k, o)) -> Printf.sprintf "stale:%d:%d" (int_of_nat k) (int_of_n o)
            | TpPanicked -> "panic" in
          Some (Printf.sprintf "%d | %s" (List.length pgs) (String.concat " " (List.map show locs)))
        | _ -> Some "badcmd"
      with Failure m -> Some m in
    match ans with
    | None -> ()
    | Some a -> print_string a; print_newline ())
