(* Model side of the C12 correspondence (request queue, Model/ReqMgr.v).
   usage: c12_driver [capacity [max_workers [reply_capacity]]]
          defaults: the real values, taken from the extracted [rinit_real]
          (100, 24, 1); reply_capacity 0 = the unbuffered reply channels of
          the code before the fix of F-REQ-DEADLOCK.
   stdin: one schedule per line, labels separated by ';':
     E id          Enqueue id       (AppendRequest up to the Unlock)
     T id          SendToken id     (AppendRequest's token send)
     L             LoopRecv         (Run: receive one message), unchecked
     L token       LoopRecv, and the message received must be a wake-up token
     L id ok|ab    LoopRecv, and the message received must be that result
     D id          Deliver id       (Run: hand the result to caller id)
     X             Dispatch         (Run: the dispatch step ending the iteration), unchecked
     X id          Dispatch that starts exactly request id
     X -           Dispatch that starts nothing (queue empty or all slots taken)
     F id ok|ab    WorkerFinish id  (worker sends its result / the aborted marker)
   The special line "deadlock n" runs the extracted [deadlock_schedule n].
   Lines that are empty or start with '#' are skipped.
   stdout, one line per schedule:
     ok queue=.. inflight=.. chan=.. done=id,id,.. loop=.. workers=.. ens=.. rns=..
        callers=ENS:a,RNS:b,W:c,DONE:d enabled=N potential=P          (one line)
   or  notenabled@<k>                    label k is not enabled in the model
   or  mismatch@<k> recv model=<m>       label k = annotated L, the model's channel head is <m>
   or  mismatch@<k> dispatch model=<d>   label k = annotated X, the model starts <d> (an id or -)
   k is the 0-based position of the label in the line.  Lists are comma
   separated, "-" when empty; queue and chan are in order (chan: receive
   order, T = token, R<id>ok / R<id>ab = results; <m> uses the same syntax);
   done/workers/ens/rns are sorted.  done = callers in CDone only; ens =
   Enqueued_not_signalled; rns = Replied_not_signalled (reply already in the
   caller's channel, token not yet sent); loop = I (idle) | D<id> | X. *)
open Sdbmodel
open Util

let ids (l : n list) : string =
  if l = [] then "-" else String.concat "," (List.map (fun x -> string_of_int (int_of_n x)) l)

let sorted_ids (l : n list) : string =
  if l = [] then "-"
  else String.concat "," (List.map string_of_int (List.sort compare (List.map int_of_n l)))

let show_msg (m : msg) : string =
  match m with
  | Token -> "T"
  | Result (i, Ok) -> Printf.sprintf "R%dok" (int_of_n i)
  | Result (i, Aborted) -> Printf.sprintf "R%dab" (int_of_n i)

let show_state (s : rstate) : string =
  let chan = if s.chan = [] then "-" else String.concat "," (List.map show_msg s.chan) in
  let pick f = List.filter_map (fun (k, c) -> if f c then Some k else None) s.callers in
  let dones = pick (fun c -> match c with CDone (_, _) -> true | _ -> false) in
  let ens = pick (fun c -> c = Enqueued_not_signalled) in
  let rns = pick (fun c -> match c with Replied_not_signalled (_, _) -> true | _ -> false) in
  let waiting = pick (fun c -> c = Waiting) in
  let loop = match s.loop with
    | Idle -> "I"
    | Dispatching -> "X"
    | Delivering (i, _) -> Printf.sprintf "D%d" (int_of_n i) in
  Printf.sprintf
    "ok queue=%s inflight=%d chan=%s done=%s loop=%s workers=%s ens=%s rns=%s callers=ENS:%d,RNS:%d,W:%d,DONE:%d enabled=%d potential=%d"
    (ids s.queue) (int_of_n s.inflight) chan (sorted_ids dones) loop (sorted_ids s.workers)
    (sorted_ids ens) (sorted_ids rns)
    (List.length ens) (List.length rns) (List.length waiting) (List.length dones)
    (List.length (enabled s)) (int_of_nat (potential s))

(* what the implementation observed at an annotated step *)
type check =
  | NoCheck
  | Recv of msg                (* L token | L id ok|ab *)
  | Starts of n option         (* X id | X - *)

let parse_label (op : string) : label * check =
  let id s = n_of_int (int_of_string s) in
  match fields op with
  | "E" :: i :: _ -> (Enqueue (id i), NoCheck)
  | "T" :: i :: _ -> (SendToken (id i), NoCheck)
  | "L" :: "token" :: _ -> (LoopRecv, Recv Token)
  | "L" :: i :: "ok" :: _ -> (LoopRecv, Recv (Result (id i, Ok)))
  | "L" :: i :: "ab" :: _ -> (LoopRecv, Recv (Result (id i, Aborted)))
  | "L" :: [] -> (LoopRecv, NoCheck)
  | "D" :: i :: _ -> (Deliver (id i), NoCheck)
  | "X" :: "-" :: _ -> (Dispatch, Starts None)
  | "X" :: i :: _ -> (Dispatch, Starts (Some (id i)))
  | "X" :: [] -> (Dispatch, NoCheck)
  | "F" :: i :: "ok" :: _ -> (WorkerFinish (id i, Ok), NoCheck)
  | "F" :: i :: "ab" :: _ -> (WorkerFinish (id i, Aborted), NoCheck)
  | _ -> failwith ("bad label: " ^ op)

(* runs the schedule with the extracted [rstep]; Error carries the verdict line *)
let rec run (k : int) (s : rstate) (ls : (label * check) list) : (rstate, string) result =
  match ls with
  | [] -> Stdlib.Ok s
  | (l, chk) :: rest ->
    (match rstep s l with
     | None -> Stdlib.Error (Printf.sprintf "notenabled@%d" k)
     | Some s' ->
       (match chk with
        | NoCheck -> run (k + 1) s' rest
        | Recv m ->
          (* LoopRecv was enabled, so the channel is not empty *)
          let head = List.hd s.chan in
          if head = m then run (k + 1) s' rest
          else Stdlib.Error (Printf.sprintf "mismatch@%d recv model=%s" k (show_msg head))
        | Starts want ->
          let started =
            if List.length s'.workers > List.length s.workers then Some (List.hd s'.workers)
            else None in
          if started = want then run (k + 1) s' rest
          else Stdlib.Error (Printf.sprintf "mismatch@%d dispatch model=%s" k
                        (match started with Some i -> string_of_int (int_of_n i) | None -> "-"))))

let () =
  let arg i d = if Array.length Sys.argv > i then n_of_int (int_of_string Sys.argv.(i)) else d in
  let init = rinit (arg 1 rinit_real.cap) (arg 2 rinit_real.maxw) (arg 3 rinit_real.rcap) in
  iter_lines (fun line ->
    let line = String.trim line in
    if line <> "" && line.[0] <> '#' then begin
      let sched = match fields line with
        | "deadlock" :: k :: _ ->
          List.map (fun l -> (l, NoCheck)) (deadlock_schedule (nat_of_int (int_of_string k)))
        | _ ->
          List.map parse_label
            (List.filter (fun x -> String.trim x <> "") (String.split_on_char ';' line)) in
      match run 0 init sched with
      | Stdlib.Ok s ->
        (* cross-check against the extracted [rrun] *)
        (match rrun (List.map fst sched) init with
         | Some s2 when s2 = s -> print_endline (show_state s)
         | _ -> failwith "rrun and rstep disagree")
      | Stdlib.Error verdict -> print_endline verdict
    end)
