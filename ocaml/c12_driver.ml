(* Model side of the C12 correspondence (request queue, Model/ReqMgr.v).
   usage: c12_driver [capacity [max_workers]]      (defaults: the real 100 and 24)
   stdin: one schedule per line, labels separated by ';':
     E id        Enqueue id       (AppendRequest up to the Unlock)
     T id        SendToken id     (AppendRequest's token send)
     L           LoopRecv         (Run: receive one message)
     D id        Deliver id       (Run: hand the result to caller id)
     X           Dispatch         (Run: the dispatch step that ends the iteration)
     F id ok|ab  WorkerFinish id  (worker sends its result / the aborted marker)
   The special line "deadlock n" runs the extracted [deadlock_schedule n].
   stdout, one line per schedule:
     ok queue=.. inflight=.. chan=.. done=id,id,.. loop=.. workers=.. ens=.. enabled=N potential=P
   or  notenabled@<k>   (k = 0-based position of the first label that is not enabled).
   Lists are comma separated, "-" when empty; chan is in receive order with
   T = token, R<id>ok / R<id>ab = results; done/workers/ens are sorted. *)
open Sdbmodel
open Util

let ids (l : n list) : string =
  if l = [] then "-" else String.concat "," (List.map (fun x -> string_of_int (int_of_n x)) l)

let sorted_ids (l : n list) : string =
  if l = [] then "-"
  else String.concat "," (List.map string_of_int (List.sort compare (List.map int_of_n l)))

let show_msg (m : msg) : string =
  match m with
  | Token -> "T"
  | Result (i, Ok) -> Printf.sprintf "R%dok" (int_of_n i)
  | Result (i, Aborted) -> Printf.sprintf "R%dab" (int_of_n i)

let show_state (s : rstate) : string =
  let chan = if s.chan = [] then "-" else String.concat "," (List.map show_msg s.chan) in
  let dones = List.filter_map (fun (k, c) -> match c with CDone (_, _) -> Some k | _ -> None) s.callers in
  let ens = List.filter_map (fun (k, c) -> match c with Enqueued_not_signalled -> Some k | _ -> None) s.callers in
  let loop = match s.loop with
    | Idle -> "I"
    | Dispatching -> "X"
    | Delivering (i, _) -> Printf.sprintf "D%d" (int_of_n i) in
  Printf.sprintf "ok queue=%s inflight=%d chan=%s done=%s loop=%s workers=%s ens=%s enabled=%d potential=%d"
    (ids s.queue) (int_of_n s.inflight) chan (sorted_ids dones) loop (sorted_ids s.workers)
    (sorted_ids ens) (List.length (enabled s)) (int_of_nat (potential s))

let parse_label (op : string) : label =
  let id s = n_of_int (int_of_string s) in
  match fields op with
  | "E" :: i :: _ -> Enqueue (id i)
  | "T" :: i :: _ -> SendToken (id i)
  | "L" :: _ -> LoopRecv
  | "D" :: i :: _ -> Deliver (id i)
  | "X" :: _ -> Dispatch
  | "F" :: i :: "ok" :: _ -> WorkerFinish (id i, Ok)
  | "F" :: i :: "ab" :: _ -> WorkerFinish (id i, Aborted)
  | _ -> failwith ("bad label: " ^ op)

(* position of the first label that is not enabled *)
let rec first_disabled (k : int) (s : rstate) (ls : label list) : int =
  match ls with
  | [] -> k
  | l :: r -> (match rstep s l with Some s' -> first_disabled (k + 1) s' r | None -> k)

let () =
  let arg i d = if Array.length Sys.argv > i then int_of_string Sys.argv.(i) else d in
  let init = rinit (n_of_int (arg 1 100)) (n_of_int (arg 2 24)) in
  iter_lines (fun line ->
    let line = String.trim line in
    if line <> "" && line.[0] <> '#' then begin
      let sched = match fields line with
        | "deadlock" :: k :: _ -> deadlock_schedule (nat_of_int (int_of_string k))
        | _ ->
          List.map parse_label
            (List.filter (fun x -> String.trim x <> "") (String.split_on_char ';' line)) in
      match rrun sched init with
      | Some s -> print_endline (show_state s)
      | None -> Printf.printf "notenabled@%d\n" (first_disabled 0 init sched)
    end)
