(* Model side of the C15 correspondence (slotted page). *)
open Sdbmodel
open Util

let show_state (s : pstate) : string =
  Printf.sprintf "%d|%s|%s" (int_of_n s.fsp)
    (String.concat "/" (List.map (fun (o, z) -> Printf.sprintf "%d,%d" (int_of_n o) (int_of_n z)) s.slots))
    (digest s.data)

let show_out (o : pout) : string =
  match o with
  | OInserted i -> Printf.sprintf "ins:%d" (int_of_n i)
  | ONoSpace -> "nospace"
  | OUpdated old -> "upd:" ^ digest old
  | ORollbackDifficult -> "rbdiff"
  | OFail -> "fail"
  | OMarked t -> "mark:" ^ digest t
  | ODone -> "done"
  | OPanic -> "panic"
  | OTuple t -> "tup:" ^ digest t
  | OSelfDeleted -> "selfdel"
  | OErr -> "err"

let parse_op (op : string) : pop =
  let i = int_of_string in
  match fields op with
  | "I" :: n :: seed :: _ -> PInsert (row_bytes (i n) (i seed))
  | "J" :: slot :: n :: seed :: _ -> PInsertAt (n_of_int (i slot), row_bytes (i n) (i seed))
  | "U" :: slot :: n :: seed :: rb :: _ -> PUpdate (n_of_int (i slot), row_bytes (i n) (i seed), rb = "1")
  | "IH" :: h :: _ -> PInsert (bytes_of_hex h)
  | "UH" :: slot :: h :: rb :: _ -> PUpdate (n_of_int (i slot), bytes_of_hex h, rb = "1")
  | "M" :: slot :: _ -> PMark (n_of_int (i slot))
  | "A" :: slot :: _ -> PApply (n_of_int (i slot))
  | "R" :: slot :: _ -> PRollback (n_of_int (i slot))
  | "G" :: slot :: _ -> PGet (n_of_int (i slot))
  | _ -> failwith "bad op"

(* Usage: c15_driver        : concrete model, same output format as the Go harness
          c15_driver spec   : additionally checks, after every step, that the concrete
                              model's output equals the specification's and that abs commutes;
                              prints "REFINE-FAIL <k>" tokens if not (never expected: proved). *)
let () =
  let check_spec = Array.length Sys.argv > 1 && Sys.argv.(1) = "spec" in
  iter_lines (fun line ->
    let ops = List.filter (fun x -> String.trim x <> "") (String.split_on_char ';' line) in
    if ops <> [] then begin
      let st = ref pinit in
      let a = ref (abs pinit) in
      let k = ref 0 in
      let outs = List.map (fun op ->
        let o = parse_op op in
        let (s', out) = pstep !st o in
        st := s';
        let extra =
          if check_spec then begin
            let (a', aout) = astep !a o in
            a := a';
            incr k;
            if aout <> out || abs s' <> a' then Printf.sprintf " REFINE-FAIL %d" !k else ""
          end else "" in
        show_out out ^ "|" ^ show_state s' ^ extra) ops in
      print_endline (String.concat " " outs)
    end)
