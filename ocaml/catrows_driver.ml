(* Model side of the catalog persistence correspondence (C10, coq/Model/CatalogRows.v).
   Same command lines and the same dump lines as `verifharness catrows`; what the engine decides
   (first heap page of the new table, header pages reported by hash / B-tree index constructors)
   is given on the create line.

     boot                                        state after BootstrapCatalog
     create <sql 0|1> <namehex> <first page> <col,col,..|->
            col = <namehex>:<type id>:<hasIndex 0|1>:<kind>:<hdr passed to NewColumn>:<hdr reported by the engine>
            answer "ok:<oid>" | "err:exists" (SQL path: name already in the catalog) | "panic" (illegal index kind)
     restart                                     clean shutdown + reload
     trows | crows | view | byname <namehex> | byoid <oid>      as printed by the harness
     next                                        "ok:<nextTableID>"
     guard                                       "ok:<names pairwise distinct 0|1>" *)
open Sdbmodel
open Util

let hexn (l : n list) : string = hex_of_bytes l

let show_col (c : cr_col) : string =
  Printf.sprintf "%s:%d:%d:%d:%d:%d:%d:%d" (hexn c.cc_name) (int_of_z c.cc_type) (int_of_n c.cc_fixed) (int_of_n c.cc_var)
    (int_of_n c.cc_off) (if c.cc_hasidx then 1 else 0) (int_of_z c.cc_kind) (int_of_z c.cc_hdr)

let show_tab (t : cr_tab) : string =
  Printf.sprintf "%d|%s|%d|%s" (int_of_n t.ct_oid) (hexn t.ct_name) (int_of_z t.ct_first)
    (String.concat ";" (List.map show_col t.ct_cols))

let show_opt (o : cr_tab option) : string = match o with Some t -> show_tab t | None -> "nil"

let parse_col (s : string) : cr_colspec =
  match String.split_on_char ':' s with
  | [nm; ty; hi; kind; hdr; newhdr] ->
    { cs_name = bytes_of_hex nm; cs_type = z_of_int (int_of_string ty); cs_hasidx = (hi = "1");
      cs_kind = z_of_int (int_of_string kind); cs_hdr = z_of_int (int_of_string hdr); cs_newhdr = z_of_int (int_of_string newhdr) }
  | _ -> failwith ("bad column " ^ s)

let () =
  let st = ref cr_boot in
  iter_lines (fun line ->
    let ans =
      try
        match fields line with
        | [] -> None
        | "boot" :: _ -> st := cr_boot; Some "ok"
        | "create" :: sql :: nm :: first :: rest ->
          let sql = (sql = "1") in
          let name = bytes_of_hex nm in
          let specs = match rest with
            | [] | "-" :: _ -> []
            | cs :: _ -> List.map parse_col (String.split_on_char ',' cs) in
          if cr_refused !st sql name then Some "err:exists"
          else begin
            let oid = int_of_n !st.cr_next in
            let legal = List.for_all cr_idx_legal specs in
            st := cr_step !st (CrCreate (sql, name, specs, z_of_int (int_of_string first)));
            Some (if legal then Printf.sprintf "ok:%d" oid else "panic")
          end
        | "restart" :: _ -> st := cr_step !st CrRestart; Some "ok"
        | "trows" :: _ ->
          Some ("ok:" ^ String.concat ";" (List.map (fun ((pg, sl), r) ->
            Printf.sprintf "%d.%d=%d,%s,%d" (int_of_n pg) (int_of_n sl) (int_of_z r.tr_oid) (hexn r.tr_name) (int_of_z r.tr_first))
            (cr_dump !st.cr_theap)))
        | "crows" :: _ ->
          Some ("ok:" ^ String.concat ";" (List.map (fun ((pg, sl), r) ->
            Printf.sprintf "%d.%d=%d,%d,%s,%d,%d,%d,%d,%d,%d" (int_of_n pg) (int_of_n sl) (int_of_z r.cw_oid) (int_of_z r.cw_type)
              (hexn r.cw_name) (int_of_z r.cw_fixed) (int_of_z r.cw_var) (int_of_z r.cw_off) (int_of_z r.cw_hasidx)
              (int_of_z r.cw_kind) (int_of_z r.cw_hdr))
            (cr_dump !st.cr_cheap)))
        | "view" :: _ ->
          let oids = List.sort compare (List.map int_of_n (cr_oids !st)) in
          let os = List.map (fun o -> Printf.sprintf "O%d=%s" o (show_opt (cr_lookup_oid !st (n_of_int o)))) oids in
          (* Go sorts the names bytewise: the same order as their lower-case hex strings *)
          let names = List.sort compare (List.map hexn (cr_names !st)) in
          let ns = List.map (fun h ->
            match cr_lookup_name !st (bytes_of_hex h) with
            | Some t -> Printf.sprintf "N%s=%d" h (int_of_n t.ct_oid)
            | None -> Printf.sprintf "N%s=nil" h) names in
          Some ("ok:" ^ String.concat " " (os @ ns))
        | "byname" :: nm :: _ -> Some ("ok:" ^ show_opt (cr_lookup_name !st (bytes_of_hex nm)))
        | "byoid" :: o :: _ -> Some ("ok:" ^ show_opt (cr_lookup_oid !st (n_of_int (int_of_string o))))
        | "next" :: _ -> Some (Printf.sprintf "ok:%d" (int_of_n !st.cr_next))
        | "guard" :: _ -> Some (if cr_names_distinct !st then "ok:1" else "ok:0")
        | _ -> Some "err:unknown-command"
      with e -> Some ("err:" ^ Printexc.to_string e) in
    match ans with
    | Some a -> print_endline a; flush stdout
    | None -> ())
